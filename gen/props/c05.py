# C05: embedded references render as text of the rendered value.
# Differential run (model vs implementation) + independent oracle: the implementation's own
# rendered string must equal  pre + text_of(implementation's rendered target) + post,
# with text_of the extracted specification Spec/TextOf.v.
import valgen as V
from common import *  # noqa


def to_ast(v):
    """canonical rendered value (python structure) -> yaml AST for the textof mode"""
    if v is None:
        return N
    if v is True or v is False:
        return B(v)
    t = v[0]
    if t == 'int':
        return I(v[1])
    if t == 'float':
        for f in FLOATS:
            if f.ytext == v[1]:
                return ('f', f)
        raise ValueError(v)
    if t in ('str', 'lit'):
        return S(v[1])
    if t == 'seq':
        return ('l', [to_ast(x) for x in v[1]])
    if t == 'map':
        return ('m', [(to_ast(k), to_ast(x)) for k, x, _ in v[1]])
    raise ValueError(v)


def closed(v):
    if v is None or v is True or v is False:
        return True
    t = v[0]
    if t in ('str', 'vlist'):
        return False
    if t == 'seq':
        return all(closed(x) for x in v[1])
    if t == 'map':
        return all(closed(x) for _, x, _ in v[1])
    return True


def member(rng, depth):
    r = rng.random()
    if r < 0.2:
        return I(rng.choice(V.INTS))
    if r < 0.3 and FLOATS:
        return ('f', rng.choice(FLOATS))
    if r < 0.4:
        return S('${b}')                     # member that is a reference
    if r < 0.45:
        return S('v-${b}')
    if depth > 0 and r < 0.6:
        return ('l', [member(rng, depth - 1) for _ in range(rng.randint(0, 3))])
    if depth > 0 and r < 0.75:
        ks = rng.sample(['k1', 'k2', 'zz', 'a', 'A', 'é', 'q"'], rng.randint(0, 3))
        es = [(S(k), member(rng, depth - 1)) for k in ks]
        if rng.random() < 0.25:
            es.append((rng.choice([I(1), B(True), N] + ([('f', rng.choice(FLOATS))] * 3 if FLOATS else [])), member(rng, 0)))
        return ('m', es)
    return V.scalar(rng)


def gen_case(rng):
    shape = rng.choice(['direct', 'direct', 'viaref', 'layered', 'scalar'])
    base = [(S('b'), rng.choice([I(7), S('bee'), B(False), I(2**63)]))]
    layers = []
    if shape == 'scalar':
        tv = V.scalar(rng)
        base.append((S('t'), tv))
    elif shape == 'direct':
        tv = member(rng, 2)
        if tv[0] not in ('l', 'm'):
            tv = ('l', [tv])
        base.append((S('t'), tv))
    elif shape == 'viaref':
        tv = member(rng, 2)
        base.append((S('u'), tv))
        base.append((S('t'), S('${u}')))
    else:
        # t defined by two layers (maps or lists), merged
        if rng.random() < 0.5:
            a = ('m', [(S('k1'), member(rng, 1)), (S('k2'), member(rng, 1))])
            b = ('m', [(S('k2'), member(rng, 1)), (S('k3'), member(rng, 1))])
        else:
            a = ('l', [member(rng, 1)])
            b = ('l', [member(rng, 1), member(rng, 1)])
        base.append((S('t'), a))
        layers.append(('m', [(S('t'), b)]))
        if rng.random() < 0.5:
            # a null layer resets the parameter; a further layer defines it anew.  Members are also
            # embedded on their own (${t:k2}): their text is the text of the member of the final value
            layers.append(('m', [(S('t'), N)]))
            c = ('m', [(S('k2'), member(rng, 1)), (S('k3'), member(rng, 1))]) if a[0] == 'm' else ('l', [member(rng, 1)])
            layers.append(('m', [(S('t'), c)]))
        if a[0] == 'm':
            base.append((S('sm'), S('<%s|%s>' % ('${t:k2}', '${t:k3}'))))
        if a[0] == 'm' and rng.random() < 0.35:
            # the layers of t are given by reference, two of them by the very same reference (or through an alias of
            # it): members are still embedded one by one
            base.append((S('dflt'), b))
            base.append((S('tuned'), S('${dflt}')))
            layers[0] = ('m', [(S('t'), S('${dflt}'))])
            layers.insert(1, ('m', [(S('t'), S(rng.choice(['${dflt}', '${tuned}'])))]))
    # literal pieces as (written, rendered): dollars and backslashes that are not markers stay as
    # they are, an escaped marker loses its backslash
    pre_w, pre = rng.choice([('', ''), ('x', 'x'), ('pre ', 'pre '), ('é=', 'é='), ('"', '"'), ('{', '{'),
                             ('$', '$'), ('cost $5 ', 'cost $5 '), ('$HOME/', '$HOME/'), ('a\\b ', 'a\\b '),
                             ('\\${esc} ', '${esc} '), ('\\$[inv] ', '$[inv] ')])
    post_w, post = rng.choice([('', ''), (' post', ' post'), ('!', '!'), ('}', '}'), (' end', ' end'),
                               (' $', ' $'), (' && echo $HOME', ' && echo $HOME'), (' c:\\dir', ' c:\\dir'),
                               (':\\${X}', ':${X}')])
    if pre == '' and post == '':
        post_w = post = '.'
    base.append((S('s'), S(pre_w + '${t}' + post_w)))
    # the embedding string is also reached through further references (its text must not depend on
    # how deep in a reference chain it is produced)
    base.append((S('a1'), S('${s}')))
    base.append((S('a2'), S(rng.choice(['via ${s}', '${a1}', '<${a1}>']))))
    rng.shuffle(base)
    return [('m', base)] + layers, pre, post, shape


def run(tier, rng, C):
    n = 2500 if tier == 'quick' else 60000
    cases, meta = [], {}
    for i in range(n):
        layers, pre, post, shape = gen_case(rng)
        cid = C.case_id('c', i)
        cases.append({'id': cid, 'line': V.stack_line(cid, 'value', layers), 'show': V.stack_show(layers),
                      'nontrivial': shape != 'scalar' or True})
        meta[cid] = (pre, post, shape)

    # long templates: many embedded references in one string (each resolved independently)
    for i in range(12 if tier == 'quick' else 200):
        k = rng.choice([65, 70, 100, 9, 24])
        hops = 1 if k >= 65 else rng.randint(3, 9)
        es = [(S('v0'), rng.choice([I(5), S('txt'), ('l', [I(1), I(2)]), M(('q', I(1)))]))]
        es += [(S('v%d' % h), S('${v%d}' % (h - 1))) for h in range(1, hops + 1)]
        es.append((S('t'), S('${v%d}' % hops)))
        es.append((S('s'), S('|'.join(['${t}'] * k))))
        cid = C.case_id('L', i)
        layers = [('m', es)]
        cases.append({'id': cid, 'line': V.stack_line(cid, 'value', layers),
                      'show': 'template with %d references through %d aliases: %s' % (k, hops, V.stack_show(layers)[:200]), 'nontrivial': True})
        meta[cid] = (None, None, 'template')

    def oracle(cases, mobs, iobs):
        fails = []
        want = []
        for c in cases:
            o = iobs.get(c['id'], '')
            if obs_kind(o) == 'panic':
                fails.append({'key': 'embedded-container-panic', 'severity': 'fail', 'show': c['show'], 'lines': [c['line']],
                              'reason': 'rendering panicked: ' + C.describe(o), 'model': C.describe(mobs.get(c['id'], '')),
                              'impl': C.describe(o), 'size': len(c['line'])})
                continue
            if obs_kind(o) != 'ok':
                continue
            v = C.canon_value(o)
            d = {k[1]: x for k, x, _ in v[1] if k and k[0] == 'str'}
            if 't' not in d or 's' not in d or not closed(d['t']):
                continue
            want.append((c, d))
        lines = ['%s textof %s' % (c['id'], enc(to_ast(d['t']))) for c, d in want]
        tout = C.run_sharded(C.DRIVER, lines)
        for c, d in want:
            pre, post, shape = meta[c['id']]
            if shape == 'template':
                continue
            to = tout.get(c['id'], '')
            if not to.startswith('ok '):
                continue
            expect = pre + unhx(to.split(' ')[1][1:]) + post
            got = d['s']
            if got is None or got is True or got is False or got[0] != 'lit' or got[1] != expect:
                kind = 'int-as-float' if ('.0' in str(got[1]) or 'e+' in str(got[1]) or 'e1' in str(got[1])) and '${' not in str(got[1]) else (
                    'member-unrendered' if '${' in str(got[1]) else 'text-differs')
                fails.append({'key': 'embedded-text:' + kind, 'severity': 'fail', 'show': c['show'], 'lines': [c['line']],
                              'reason': 'embedded text %r, specification says %r' % (got[1][:200], expect[:200]),
                              'model': C.describe(mobs.get(c['id'], '')), 'impl': C.describe(iobs[c['id']]),
                              'size': len(c['line'])})
        return fails

    rule = ('%d random roots: key s = literal pieces around ${t}; target t scalar / container reached directly, through a '
            'reference, or as a two-layer key; members include 64-bit extreme integers, floats, references, nested containers, '
            'non-string keys; non-trivial = all (every case renders an embedded reference); oracle = extracted Spec/TextOf.v '
            'applied to the implementation\'s own rendered t' % n)
    return C.standard_run(cases, rule, key_fn=lambda c, m, i, r: 'model-impl-differ', extra_oracle=oracle)

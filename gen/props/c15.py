# C15: relative class names resolve against the including class's directory.
import itertools
import invgen as G
from common import *  # noqa


def absolutize(inv):
    """twin inventory: every literal relative include replaced by the absolute name it denotes"""
    t = G.Inv()
    t.__dict__.update({k: (dict(v) if isinstance(v, dict) else v) for k, v in inv.__dict__.items()})
    for files, is_node in ((t.classes, False), (t.nodes, True)):
        for p, d in list(files.items()):
            if not isinstance(d, tuple) or d[0] != 'm':
                continue
            stem = p[-1].rsplit('.', 1)[0]
            loc = [] if is_node else list(p[:-1])
            if not is_node and stem == 'init':
                loc = list(p[:-2])
            es = []
            for k, v in d[1]:
                if k == ('s', 'classes') and v[0] == 'l':
                    rv = getattr(inv, 'refvals', None) or {}
                    # an entry ${refN} denotes the (relative) name held by refN: replaced by the absolute name too
                    v = ('l', [S(G.py_abs_class_name(loc, x[1])) if x[0] == 's' and '${' not in x[1]
                               else (S(rv[x[1][2:-1]][1]) if x[0] == 's' and x[1][2:-1] in rv else x) for x in v[1]])
                es.append((k, v))
            files[p] = ('m', es)
    return t


def rel_inv(rng):
    """class tree with directories up to depth 3 and init classes; includes written relatively"""
    inv = G.Inv()
    dirs = [(), ('a',), ('a', 'b'), ('a', 'b', 'c'), ('d',)]
    if rng.random() < 0.3:
        # literal dots in directory and file names: the location of a class is its directory, not a
        # prefix of its dotted name
        dirs += [('e.f',), ('a', 'g.h')]
    if rng.random() < 0.35:
        # class directories whose name starts with an underscore (only node names treat those specially)
        dirs += [('_s',), ('_s', 'sub'), ('a', '_t')]
    dotted = rng.random() < 0.3
    names = []
    refvals = {}
    for i in range(rng.randint(3, 8)):
        d = rng.choice(dirs)
        if rng.random() < 0.2 and d:
            path = d + ('init.yml',)
            name = '.'.join(d)
            loc = list(d[:-1])
        else:
            stem = ('k%d.v' % i) if dotted and rng.random() < 0.5 else 'k%d' % i
            if rng.random() < 0.12:
                stem = rng.choice(['init.local%d', 'init%d', 'initx.k%d', 'x.init.k%d']) % i     # ordinary classes whose file name begins like an init file
            path = d + (stem + '.yml',)
            name = '.'.join(d + (stem,))
            loc = list(d)
        if path in inv.classes or name in [n for n, _, _ in names]:
            continue
        names.append((name, path, loc))
    for idx, (name, path, loc) in enumerate(names):
        incs = []
        for (tn, tp, tl) in names[idx + 1:]:
            if rng.random() < 0.4:
                # write tn relative to loc with a random admissible dot count
                tsegs = tn.split('.')
                k = 0
                while k < len(loc) and k < len(tsegs) - 1 and loc[k] == tsegs[k]:
                    k += 1
                dots = len(loc) - k + 1
                if rng.random() < 0.3:
                    dots_extra = rng.randint(0, 3) if k == 0 else 0      # past the root saturates
                else:
                    dots_extra = 0
                rel = '.' * (dots + dots_extra) + '.'.join(tsegs[k:])
                inc = rel if G.py_abs_class_name(loc, rel) == tn else tn
                if rng.random() < 0.25:
                    # the (relative) name is produced by a reference: same resolution rule
                    key = 'ref%d' % len(refvals)
                    refvals[key] = (inc, tn)
                    inc = '${%s}' % key
                incs.append(inc)
        inv.classes[path] = G.doc(incs, ['app_' + name], ('m', [(S('trace'), L(S(name))), (S('v'), S(name))]))
    inv.universe.update(n for n, _, _ in names)
    roots = [n for n, _, _ in names if rng.random() < 0.5] or [names[0][0]]
    roots = [('.' * rng.randint(1, 3) + r) if rng.random() < 0.4 else r for r in roots]   # nodes resolve relative to the root
    if refvals:
        # the values of the reference-bearing include entries, merged before every other class
        inv.classes[('zsel.yml',)] = G.doc([], [], ('m', [(S(k), S(v[0])) for k, v in sorted(refvals.items())]))
        inv.universe.add('zsel')
        roots = ['zsel'] + roots
    inv.refvals = refvals
    # the node file itself may live in a sub-directory of the nodes directory (named like a class directory
    # or not): a node's relative includes are still taken from the root of the class tree
    npath = rng.choice([('n.yml',), ('n.yml',), ('a', 'n.yml'), ('a', 'b', 'n.yml'), ('d', 'n.yml'), ('site', 'n.yml'), ('_t', 'n.yml')])
    inv.nodes[npath] = G.doc(roots, [], ('m', [(S('trace'), L(S('NODE')))]))
    return inv


def run(tier, rng, C):
    cases = []
    # direct: abs_class_name through the hook, exhaustive small scope
    segs = ['a', 'b', 'c']
    n = 0
    for depth in range(0, 4):
        for loc in itertools.product(segs, repeat=depth):
            for dots in range(0, 7):
                for rest in ['x', 'x.y', '', 'a', '.x'[:0] + 'x.', '~x']:
                    cls = '.' * dots + rest
                    cid = C.case_id('d', n)
                    n += 1
                    cases.append({'id': cid, 'line': '%s abs %s S%s' % (cid, G.strs(list(loc)), hx(cls)),
                                  'show': 'abs_class_name(loc=%s, %r)' % ('/'.join(loc), cls), 'nontrivial': dots >= 2})
    ntw = 250 if tier == 'quick' else 12000
    twins = []
    for i in range(ntw):
        inv = rel_inv(rng)
        tw = absolutize(inv)
        a, b = C.case_id('r', i), C.case_id('a', i)
        cases.append({'id': a, 'line': G.inv_line(a, inv, G.op_node('n')), 'show': G.show_inv(inv, 'node n'), 'nontrivial': True})
        cases.append({'id': b, 'line': G.inv_line(b, tw, G.op_node('n')), 'show': G.show_inv(tw, 'node n'), 'nontrivial': False,
                      'twin': a, 'hasrefs': bool(getattr(inv, 'refvals', None))})

    # a class file that is a symbolic link to a file in another directory of the class tree: the class is named and
    # located by the path under which it was discovered, so its relative includes start from the link's directory
    for i in range(30 if tier == 'quick' else 600):
        inv = G.Inv()
        d1, d2 = rng.sample(['a', 'b', 'x.y', '_u', 'deep'], 2)
        dots = rng.choice(['.d', '.d', '..top', '.sub.e'])
        cdoc = G.doc([dots], ['capp'], ('m', [(S('trace'), L(S('linked')))]))
        pre1 = (d1,) if rng.random() < 0.7 else ('up', d1)
        pre2 = (d2,) if len(pre1) == 1 else ('up', d2)
        inv.classes[pre2 + ('c_real.yml',)] = cdoc
        inv.classes[pre1 + ('c.yml',)] = ('linkfile', '../%s/c_real.yml' % d2, cdoc)
        for pre, tag in ((pre1, 'one'), (pre2, 'two')):
            inv.classes[pre + ('d.yml',)] = G.doc([], [], ('m', [(S('d'), S(tag)), (S('trace'), L(S(tag + '.d')))]))
            inv.classes[pre + ('sub', 'e.yml')] = G.doc([], [], ('m', [(S('d'), S(tag + '-e')), (S('trace'), L(S(tag + '.e')))]))
        inv.classes[('top.yml',)] = G.doc([], [], ('m', [(S('d'), S('top')), (S('trace'), L(S('top')))]))
        if len(pre1) == 2:
            inv.classes[('up', 'top.yml')] = G.doc([], [], ('m', [(S('d'), S('uptop')), (S('trace'), L(S('up.top')))]))
        which = rng.choice(['link', 'real', 'both'])
        incs = {'link': ['.'.join(pre1) + '.c'], 'real': ['.'.join(pre2) + '.c_real'], 'both': ['.'.join(pre2) + '.c_real', '.'.join(pre1) + '.c']}[which]
        inv.nodes[('n.yml',)] = G.doc(incs, [], ('m', [(S('trace'), L(S('NODE')))]))
        inv.universe.update(['top', 'up.top'] + ['.'.join(p + (x,)) for p in (pre1, pre2) for x in ('c', 'c_real', 'd', 'sub.e')])
        cid = C.case_id('k', i)
        cases.append({'id': cid, 'line': G.inv_line(cid, inv, G.op_node('n')), 'show': G.show_inv(inv, 'node n'), 'nontrivial': True})

    def oracle(cases, mobs, iobs):
        fails = []
        for c in cases:
            if 'twin' not in c:
                continue
            o, o1 = iobs.get(c['id'], ''), iobs.get(c['twin'], '')
            if c.get('hasrefs') and o.startswith('ok ') and o1.startswith('ok ') and ' C ' in o and ' C ' in o1:
                # the class list shows a reference-bearing include entry as written (${refN}), the twin
                # shows the literal name: compare applications and parameters only
                cut = lambda x: x.split(' C ', 1)[0] + ' P ' + x.split(' P ', 1)[1]
                o, o1 = cut(o), cut(o1)
            if o != o1:
                fails.append({'key': 'relative-include-differs-from-absolute', 'severity': 'fail', 'show': c['show'],
                              'lines': [c['line']], 'reason': 'the node renders differently when relative includes are replaced by the '
                              'absolute names they denote: %s vs %s' % (C.describe(o1)[:300], C.describe(o)[:300]),
                              'impl': C.describe(o), 'size': len(c['line'])})
        return fails
    rule = ('exhaustive: abs_class_name for every location of depth <= 3 over {a,b,c}, 0-6 leading dots, 6 suffix shapes (through the '
            'hook); %d twin inventories (class trees of depth <= 3 with init classes, includes written relatively incl. past-root '
            'dot counts, nodes with leading dots, node files in sub-directories of the nodes directory) rendered with relative names and with the absolute names they denote; plus class files that are symbolic links into another directory, with relative includes; oracle: '
            'twin outputs identical; non-trivial = >= 2 dots or a relative twin' % ntw)
    return C.standard_run(cases, rule, key_fn=lambda c, m, i, r: 'model-impl-differ', extra_oracle=oracle, exhaustive=True)

# Shared machinery for the correspondence checks: case encoding, running the extracted
# model (driver) and the implementation (harness), observation matching.
import os, subprocess, sys, json, hashlib, time, re, random, binascii
from concurrent.futures import ThreadPoolExecutor

VERIF = os.path.dirname(os.path.dirname(os.path.abspath(__file__)))
BUILD = os.path.join(VERIF, '.build')
DRIVER = os.path.join(BUILD, 'driver', 'driver')
HARNESS = os.path.join(BUILD, 'harness-target', 'debug', 'rv-harness')
NCPU = 16
os.environ.setdefault('RV_SCRATCH', os.path.join(BUILD, 'scratch'))


def sweep_scratch():
    """remove scratch directories left behind by harness processes that no longer exist (killed cases)"""
    import re
    import shutil
    base = os.environ['RV_SCRATCH']
    try:
        names = os.listdir(os.fsencode(base))
    except OSError:
        return
    for nme in names:
        m = re.match(rb'p(\d+)-\d+$', nme)
        if m and not os.path.exists('/proc/%s' % m.group(1).decode()):
            shutil.rmtree(os.path.join(os.fsencode(base), nme), ignore_errors=True)


sweep_scratch()


def hx(s):
    if isinstance(s, str):
        s = s.encode('utf-8')
    return binascii.hexlify(s).decode()


def unhx(h):
    return binascii.unhexlify(h).decode('utf-8', 'replace')


# ---------------------------------------------------------------- AST
# ('n',) ('b',bool) ('i',int) ('f',float_token) ('s',str) ('l',[ast]) ('m',[(k,v)]) ('t',tag,ast)
N = ('n',)


def S(s):
    return ('s', s)


def I(i):
    return ('i', i)


def B(b):
    return ('b', b)


def L(*xs):
    return ('l', list(xs))


def M(*kvs):
    return ('m', [(S(k) if isinstance(k, str) else k, v) for k, v in kvs])


def REF(path):
    return S('${' + path + '}')


class FloatTok:
    def __init__(self, kind, ytext, jtext):
        self.kind, self.ytext, self.jtext = kind, ytext, jtext


FLOAT_TEXTS = ['1.5', '-0.25', '2.0', '1e100', '1.0e-7', '.inf', '-.inf', '.nan', '123456789.125', '0.1']
FLOATS = []
FLOAT_POOL_FAILURES = []


def init_floats():
    """Ask the implementation for the text forms of the float pool (float formatting is not modelled)."""
    if FLOATS:
        return
    lines = ['f%d float S%s' % (i, hx(t)) for i, t in enumerate(FLOAT_TEXTS)]
    out = run_proc(HARNESS, lines)
    toks = []
    for i, t in enumerate(FLOAT_TEXTS):
        o = out['f%d' % i].split(' ')
        if o[0] != 'ok':
            # the implementation cannot produce the text / JSON form of this float (panic, error):
            # reported by the caller; the entry is left out of the pool
            FLOAT_POOL_FAILURES.append({'text': t, 'line': lines[i], 'outcome': out['f%d' % i]})
            continue
        kind, ytext = o[3], unhx(o[4])
        jt = unhx(o[5][1:])          # "-[<json>]"
        assert jt.startswith('-[') and jt.endswith(']'), jt
        jtext = jt[2:-1]
        # independent reading of what the implementation reports: a finite float keeps its value in both text
        # forms, NaN and the infinities are written as JSON strings of their YAML text (JSON has no such numbers)
        try:
            if t in ('.inf', '-.inf', '.nan'):
                sane = jtext == '"%s"' % ytext and ytext.lstrip('-+').lower() in ('.inf', '.nan')
            else:
                sane = float(jtext) == float(t) and float(ytext) == float(t)
        except ValueError:
            sane = False
        if not sane:
            FLOAT_POOL_FAILURES.append({'text': t, 'line': lines[i], 'outcome': out['f%d' % i]})
            continue
        toks.append(FloatTok(kind, ytext, jtext))
    FLOATS[:] = toks          # in place: the generator modules hold this very list (from common import *)


def enc(a):
    """AST -> prefix notation shared by driver and harness."""
    t = a[0]
    if t == 'n':
        return 'N'
    if t == 'b':
        return 'T' if a[1] else 'F'
    if t == 'i':
        return 'I%d' % a[1]
    if t == 'f':
        f = a[1]
        return 'D%s:%s:%s' % (f.kind, hx(f.ytext), hx(f.jtext))
    if t == 's':
        return 'S' + hx(a[1])
    if t == 'l':
        return ' '.join(['L%d' % len(a[1])] + [enc(x) for x in a[1]])
    if t == 'm':
        return ' '.join(['M%d' % len(a[1])] + [enc(k) + ' ' + enc(v) for k, v in a[1]])
    if t == 't':
        return 'G%s %s' % (hx(a[1]), enc(a[2]))
    raise ValueError(a)


def show(a):
    """AST -> compact human-readable text (for samples / replays)."""
    t = a[0]
    if t == 'n':
        return 'null'
    if t == 'b':
        return 'true' if a[1] else 'false'
    if t == 'i':
        return str(a[1])
    if t == 'f':
        return a[1].ytext
    if t == 's':
        return json.dumps(a[1])
    if t == 'l':
        return '[' + ', '.join(show(x) for x in a[1]) + ']'
    if t == 'm':
        return '{' + ', '.join(show(k) + ': ' + show(v) for k, v in a[1]) + '}'
    if t == 't':
        return '!%s %s' % (a[1], show(a[2]))


def ast_size(a):
    t = a[0]
    if t == 'l':
        return 1 + sum(ast_size(x) for x in a[1])
    if t == 'm':
        return 1 + sum(ast_size(k) + ast_size(v) for k, v in a[1])
    if t == 't':
        return 1 + ast_size(a[2])
    return 1


# ---------------------------------------------------------------- observations
def parse_canon(tokens, i=0):
    """canonical value text -> python structure (for oracles)."""
    t = tokens[i]
    c, body = t[0], t[1:]
    if c == 'N':
        return None, i + 1
    if c == 'T':
        return True, i + 1
    if c == 'F':
        return False, i + 1
    if c == 'I':
        return ('int', int(body)), i + 1
    if c == 'D':
        return ('float', unhx(body)), i + 1
    if c == 'S':
        return ('str', unhx(body)), i + 1
    if c == 'Q':
        return ('lit', unhx(body)), i + 1
    if c in 'LV':
        n = int(body)
        i += 1
        xs = []
        for _ in range(n):
            x, i = parse_canon(tokens, i)
            xs.append(x)
        return ('seq' if c == 'L' else 'vlist', xs), i
    if c == 'M':
        n = int(body)
        i += 1
        es = []
        for _ in range(n):
            k, i = parse_canon(tokens, i)
            v, i = parse_canon(tokens, i)
            fl = None
            if i < len(tokens) and tokens[i] in ('--', 'c-', '-o', 'co'):
                fl = tokens[i]
                i += 1
            es.append((k, v, fl))
        return ('map', es), i
    raise ValueError(t)


def canon_value(obs):
    """'ok <canon>' -> structure"""
    toks = obs.split(' ')[1:]
    v, i = parse_canon(toks, 0)
    return v


PANIC_SITES = {
    'MergeString': 'unparsed String as merge target',
    'MergeValueList': 'ValueList as merge target',
    'JsonValueList': 'not yet implemented',
    'JsonKey': 'as JSON key',
    'JsonNumber': 'Serializing Number to JSON',
    'PushKey': 'raw_string() implemented for other',
    'ResolveLookup': 'We should have rendered',
    'ParseTrailing': 'Trailing data',
    'CoalesceEmpty': 'called `Option::unwrap()`',
    'YamlTagged': 'Tagged YAML',
    'MappingFromUnwrap': 'called `Result::unwrap()` on an `Err` value',
    'PyValueList': 'internal error: entered unreachable code',
    'MergeKeysUnwrap': 'called `Option::unwrap()`',
    'StackOverflow': 'stack overflow',
}


def err_fields(toks):
    out = []
    for t in toks:
        if t.startswith('S'):
            out.append(unhx(t[1:]))
        else:
            out.append(t)
    return out


KW = {
    'constant': ('constant', 'const ', 'immutable', 'frozen', 'read-only', 'readonly'),
    'merge': ('merge', 'merging', 'combine', 'conflict', 'incompatible'),
    'loop': ('loop', 'cycl', 'circular', 'recursi'),
    'depth': ('depth', 'recursion', 'nesting', 'too deep', 'limit'),
    'not found': ('not found', 'missing', 'no such', 'unknown', "doesn't exist", 'does not exist', 'undefined', 'not defined'),
    'pars': ('pars', 'syntax', 'invalid reference', 'malformed', 'unclosed', 'unterminated'),
    'sequence': ('sequence', 'list', 'array'),
    'lookup': ('lookup', 'look up', 'looking up', 'index into', 'descend'),
}


def has_kw(msg, kind):
    low = msg.lower()
    return any(w in low for w in KW[kind])


def err_matches(mtoks, msg):
    """Does the implementation's error message [msg] carry what the model error says?
    Wording is not compared: only the kind keyword and the named key / parameter / path."""
    if not mtoks:
        return False
    k = mtoks[0]
    low = msg.lower()

    def has(*words):
        # kind keywords with the usual synonyms, so that a reworded message is not an alarm
        return any(w in low for w in words)
    if k == 'EResolving':
        return err_matches(mtoks[1:], msg)
    if k == 'ENodeFailed':
        node = unhx(mtoks[1][1:])
        return node in msg and err_matches(mtoks[2:], msg)
    if k == 'EDeserialize':
        cls = unhx(mtoks[1][1:])
        return cls in msg and err_matches(mtoks[2:], msg)
    f = err_fields(mtoks[1:])
    if k == 'EConst':
        key = f[0]
        return has(*KW['constant']) and (key in msg if isinstance(key, str) and not key.startswith(('I', 'T', 'F', 'N', 'D', 'M', 'L')) else True)
    if k == 'EMerge':
        return has(*KW['merge']) and f[0] in msg and f[1] in msg
    if k == 'EFlattenString':
        return 'flatten' in low
    if k == 'EParse':
        return has(*KW['pars'])
    if k == 'ELoop':
        return has(*KW['loop']) and all(p in msg for p in f)
    if k == 'EDepth':
        return has(*KW['depth']) and f[0] in msg
    if k == 'EMissingKey':
        # names the reference, the parameter and -- outside the text of the reference, as a word -- the missing key
        import re as _re
        rest = msg.replace('${%s}' % f[0], ' ')
        key_named = _re.search(r'(?<![A-Za-z0-9_])' + _re.escape(f[1]) + r'(?![A-Za-z0-9_])', rest) is not None
        return has(*KW['not found']) and ('${%s}' % f[0]) in msg and key_named and f[2] in msg
    if k == 'ELookupSeq':
        return has(*KW['sequence']) and ('${%s}' % f[0]) in msg
    if k == 'ELookupKind':
        return has(*KW['lookup']) and ('${%s}' % f[0]) in msg and f[4] in msg
    if k == 'ERawString':
        return 'raw_string' in low and f[0] in msg
    if k == 'EJsonKey':
        return 'json key' in low and f[0] in msg
    if k == 'EJsonValueList':
        return 'json' in low
    if k == 'ETagged':
        return 'tagged' in low
    if k == 'EKeyValueList':
        return 'valuelist' in low
    if k == 'ERenderNonMapping':
        return f[0] in msg
    if k == 'EClassNotFound':
        return has(*KW['not found']) and f[0] in msg
    if k == 'EIncludeLoop':
        return has(*KW['loop']) and f[0] in msg
    if k == 'EUnknownNode':
        return 'unknown node' in low
    if k == 'EYamlShape':
        return True
    if k == 'EClassPath':
        return 'non-normal' in low
    if k == 'EMetaParts':
        return 'segment' in low or 'empty' in low
    if k == 'EDuplicate':
        return 'collides' in low      # which colliding pair is named depends on the directory walk order
    if k == 'EConfig':
        return True
    if k == 'EOther':
        return f[0].lower() in low
    return False


def obs_kind(o):
    return o.split(' ', 1)[0]


def agree(mobs, iobs, strict_panic=True):
    """Compare a model observation with an implementation observation.
    Returns None when they agree, else a short reason."""
    mk, ik = obs_kind(mobs), obs_kind(iobs)
    if mk == 'errs':
        # whole-inventory render with failing nodes: the implementation may name any of them
        alts = [a.strip().split(' ') for a in mobs.split(' || ')[1:]]
        if ik not in ('err', 'panic'):
            return 'model: nodes %s fail, impl %s' % ([unhx(a[0][1:]) for a in alts], describe(iobs))
        msg = unhx(iobs.split(' ')[1]) if len(iobs.split(' ')) > 1 else ''
        for a in alts:
            node = unhx(a[0][1:])
            if a[1] == 'err' and ik == 'err' and node in msg and err_matches(a[2:], msg):
                return None
            if a[1] == 'panic' and ik == 'panic' and PANIC_SITES.get(a[2], '\0') in msg:
                return None
            if a[1] == 'fuel':
                return 'invalid:model-out-of-fuel'
        return 'inventory error names no failing node: impl %r, failing nodes %s' % (msg[:200], [unhx(a[0][1:]) for a in alts])
    if mk == 'fuel':
        # the model's include walk does not terminate: the implementation must not return either
        return None if ik in ('abort', 'timeout') else 'invalid:model-out-of-fuel'
    if ik in ('abort', 'timeout'):
        return 'implementation did not return (%s), model: %s' % (describe(iobs), mobs[:100])
    if mk in ('badcase', 'badmode', 'badline') or ik == 'badcase':
        return 'invalid:badcase model=%s impl=%s' % (mobs[:80], iobs[:80])
    if mk == 'ok':
        if ik != 'ok':
            return 'model ok, impl %s' % describe(iobs)
        return None if mobs == iobs else 'values differ'
    if mk == 'err':
        if ik != 'err':
            return 'model err %s, impl %s' % (' '.join(mobs.split(' ')[1:2]), describe(iobs))
        msg = unhx(iobs.split(' ')[1]) if len(iobs.split(' ')) > 1 else ''
        return None if err_matches(mobs.split(' ')[1:], msg) else 'error differs: model %s, impl %r' % (mobs.split(' ')[1], msg[:160])
    if mk == 'panic':
        if ik != 'panic':
            return 'model panic %s, impl %s' % (mobs.split(' ')[1], describe(iobs))
        msg = unhx(iobs.split(' ')[1]) if len(iobs.split(' ')) > 1 else ''
        site = mobs.split(' ')[1]
        return None if PANIC_SITES.get(site, '\0') in msg else 'panic site differs: model %s impl %r' % (site, msg[:120])
    return None if mobs == iobs else 'observations differ'


def describe(obs):
    p = obs.split(' ')
    if p[0] in ('err', 'panic', 'abort', 'timeout') and len(p) > 1:
        try:
            return '%s %r' % (p[0], unhx(p[1])[:200])
        except Exception:
            return obs[:200]
    return obs[:300]


# ---------------------------------------------------------------- running
def run_proc(exe, lines, env=None, timeout=3600):
    """Runs [exe] over [lines].  If the process dies (stack overflow, abort), the case it was
    working on gets the observation 'abort <stderr tail>' and the rest is run in a new process."""
    e = dict(os.environ)
    if env:
        e.update(env)
    out = {}
    remaining = list(lines)
    restarts = 0
    while remaining:
        inp = ('\n'.join(remaining) + '\n').encode()
        try:
            p = subprocess.run([exe], input=inp, stdout=subprocess.PIPE, stderr=subprocess.PIPE, env=e, timeout=timeout)
            rc, so, se = p.returncode, p.stdout, p.stderr
        except subprocess.TimeoutExpired as te:
            rc, so, se = -999, te.stdout or b'', b'timeout'
        got = set()
        for l in so.decode('utf-8', 'replace').split('\n'):
            if '\t' in l:
                i, o = l.split('\t', 1)
                out[i] = o
                got.add(i)
        if rc == 0:
            break
        # find the first case without an observation: that is the one that killed the process
        idx = None
        for j, l in enumerate(remaining):
            if l.split(' ', 1)[0] not in got:
                idx = j
                break
        if idx is None:
            break
        culprit = remaining[idx].split(' ', 1)[0]
        tail = se.decode('utf-8', 'replace')[-200:]
        out[culprit] = ('timeout ' if rc == -999 else 'abort ') + hx(tail)
        remaining = remaining[idx + 1:]
        restarts += 1
        if restarts > 2000:
            out['__exit__'] = 'too many aborts'
            break
    return out


def run_sharded(exe, lines, shards=NCPU, env=None, ulimit_stack=False):
    if not lines:
        return {}
    shards = max(1, min(shards, (len(lines) + 49) // 50))
    chunks = [lines[i::shards] for i in range(shards)]
    out = {}
    with ThreadPoolExecutor(max_workers=shards) as ex:
        for r in ex.map(lambda c: run_proc(exe, c, env), chunks):
            ex_ = r.pop('__exit__', None)
            out.update(r)
            if ex_:
                out.setdefault('__exit__', ex_)
    return out


LAST_LINES = []
LAST_MODEL_OBS = {}


def run_both(lines):
    """lines: list of '<id> <mode> ...'.  Returns (model_obs, impl_obs) dicts by id."""
    global LAST_LINES, LAST_MODEL_OBS
    with ThreadPoolExecutor(max_workers=2) as ex:
        fm = ex.submit(run_sharded, DRIVER, lines)
        fi = ex.submit(run_sharded, HARNESS, lines)
        m, i = fm.result(), fi.result()
    if len(lines) > len(LAST_LINES):
        LAST_LINES, LAST_MODEL_OBS = list(lines), dict(m)
    return m, i


def case_id(prefix, n):
    return '%s%06d' % (prefix, n)


# ---------------------------------------------------------------- standard differential run
def severity_of(mobs, iobs):
    """'fail' when the implementation's outcome differs in kind or value from the proved
    model outcome; 'corr' when only error/panic detail differs (correspondence broken
    without a failing input)."""
    mk, ik = obs_kind(mobs), obs_kind(iobs)
    if mk != ik:
        return 'fail'
    if mk == 'ok' or mk in ('tok', 'none', 'parseerr'):
        return 'fail'
    # both fail: an error that does not name what a property says it names (the missing key and the reference, the
    # parameter of a conflict, the constant key, the missing class, the failing node, the colliding name) is a failing
    # input of that property; differences in other error detail only break the correspondence
    if mk == 'err' and any(k in mobs.split(' ')[1:4] for k in ('EMissingKey', 'EMerge', 'EConst', 'EClassNotFound', 'ENodeFailed',
                                                              'EDuplicate', 'EIncludeLoop', 'ELoop', 'EDepth')):
        return 'fail'
    return 'corr'


def standard_run(cases, rule, key_fn=None, judge=None, exhaustive=False, extra_oracle=None):
    """cases: list of dict(id, line, show, nontrivial).  Runs both sides and compares."""
    lines = [c['line'] for c in cases]
    dup = set()
    distinct_nontrivial = 0
    for c in cases:
        body = c['line'].split(' ', 1)[1]
        if body in dup:
            continue
        dup.add(body)
        if c.get('nontrivial'):
            distinct_nontrivial += 1
    mobs, iobs = run_both(lines)
    failures, invalid = [], []
    hist = {}
    for side, o in (('model', mobs), ('impl', iobs)):
        if '__exit__' in o:
            invalid.append('%s process died: %s' % (side, o['__exit__'][:200]))
    for c in cases:
        m = mobs.get(c['id'])
        im = iobs.get(c['id'])
        if m is None or im is None:
            invalid.append('missing observation for %s (model=%r impl=%r)' % (c['id'], m, im))
            continue
        hk = obs_kind(m) if obs_kind(m) != 'err' else 'err:' + m.split(' ')[1]
        if hk == 'err:EResolving':
            hk = 'err:' + m.split(' ')[2]
        hist[hk] = hist.get(hk, 0) + 1
        reason = judge(c, m, im) if judge else agree(m, im)
        if reason is None:
            continue
        if reason.startswith('invalid'):
            invalid.append('%s: %s' % (c['id'], reason))
            continue
        failures.append({
            'key': key_fn(c, m, im, reason) if key_fn else 'mismatch',
            'severity': severity_of(m, im), 'show': c['show'], 'lines': [c['line']],
            'reason': reason, 'model': describe(m), 'impl': describe(im), 'size': len(c['line']),
        })
    if extra_oracle:
        failures.extend(extra_oracle(cases, mobs, iobs))
    failures.sort(key=lambda f: f.get('size', 0))
    samples = [c['show'] for c in cases[:: max(1, len(cases) // 6)]][:8]
    return {
        'evaluations': len(cases), 'distinct_nontrivial': distinct_nontrivial, 'rule': rule,
        'samples': samples, 'failures': failures, 'invalid': invalid, 'exhaustive': exhaustive,
        'extra': {'outcome_histogram': hist},
    }

# Inventory generators and the `inv` case encoding.
import re
from common import *  # noqa
import valgen as V


class Inv:
    def __init__(self):
        self.classes = {}   # path tuple -> doc AST | 'X' (directory) | ('raw', text) | ('link', target)
        self.nodes = {}
        self.ignore = False
        self.compose = False
        self.dots = False
        self.patterns = ['.*']
        self.universe = set()   # class names that may be looked up (for the regex oracle)

    def matches(self):
        out = []
        for n in sorted(self.universe):
            for p in self.patterns:
                try:
                    if re.search(p, n):
                        out.append(n)
                        break
                except re.error:
                    pass
        return out


def doc(classes=None, apps=None, params=None, extra=None):
    es = []
    if classes is not None:
        es.append((S('classes'), ('l', [S(c) for c in classes])))
    if apps is not None:
        es.append((S('applications'), ('l', [S(a) for a in apps])))
    if params is not None:
        es.append((S('parameters'), params))
    if extra:
        es.extend(extra)
    return ('m', es)


def enc_files(files):
    ents = []
    for path in sorted(files):
        d = files[path]
        head = '%d %s' % (len(path), ' '.join('S' + hx(s) for s in path))
        if d == 'X':
            ents.append(head + ' X')
        elif isinstance(d, tuple) and d[0] == 'raw':
            ents.append(head + ' R' + hx(d[1]))
        elif isinstance(d, tuple) and d[0] == 'bytes':
            ents.append(head + ' B' + binascii.hexlify(d[1]).decode())
        elif isinstance(d, tuple) and d[0] == 'link':
            ents.append(head + ' Y' + hx(d[1]))
        elif isinstance(d, tuple) and d[0] == 'virt':
            # a file seen through a symlinked directory: on disk already, content for the model only
            ents.append(head + ' V ' + enc(d[1]))
        elif isinstance(d, tuple) and d[0] == 'linkfile':
            # a symlink to a YAML file: the harness creates the link, the model sees the content
            ents.append(head + ' K' + hx(d[1]) + ' ' + enc(d[2]))
        else:
            ents.append(head + ' ' + enc(d))
    return ' '.join(['%d' % len(ents)] + ents)


def strs(l):
    return '%d%s' % (len(l), ''.join(' S' + hx(x) for x in l))


def inv_line(cid, inv, op):
    b = lambda x: 'T' if x else 'F'
    return '%s inv %s %s %s %s %s %s %s %s' % (
        cid, b(inv.ignore), b(inv.compose), b(inv.dots), strs(inv.patterns), strs(inv.matches()),
        enc_files(inv.classes), enc_files(inv.nodes), op)


def op_node(name):
    return 'node S' + hx(name)


def show_inv(inv, op=''):
    def f(files):
        return {'/'.join(p): ('<dir>' if d == 'X' else (repr(d[1]) if isinstance(d, tuple) and d[0] in ('raw', 'link', 'bytes', 'linkfile') else (show(d[1]) if isinstance(d, tuple) and d[0] == 'virt' else show(d))))
                for p, d in sorted(files.items())}
    return json.dumps({'classes': f(inv.classes), 'nodes': f(inv.nodes), 'ignore': inv.ignore, 'compose': inv.compose,
                       'literal_dots': inv.dots, 'patterns': inv.patterns, 'op': op}, ensure_ascii=False)


def class_path(name):
    """class name a.b.c -> path ('a','b','c.yml')"""
    segs = name.split('.')
    return tuple(segs[:-1]) + (segs[-1] + '.yml',)


def py_abs_class_name(loc, cls):
    if not cls.startswith('.'):
        return cls
    n = len(cls) - len(cls.lstrip('.'))
    rest = cls[n:]
    parent = list(loc)
    drop = n - 1
    parent = parent[:max(0, len(parent) - drop)]
    return ''.join(p + '.' for p in parent) + rest


# ---------------------------------------------------------------- random include graphs
def include_graph_inv(rng, nclasses=None, cyclic=False, refs=0.25, missing=0.0, relative=0.2, apps=True, conflicts=True,
                      sel_override=0.0, sel_relative=0.0, nref=False, sel_alias=0.0):
    """Inventory with classes c0..cN (some in sub-directories), a random include DAG
    (edges only to higher indices unless cyclic), per-class parameters:
      trace: [<name>]            -- concatenates, so the rendered trace is the merge order
      k<i>, shared keys          -- colliding scalars / maps
      sel<j>: <class name>       -- read by reference-bearing includes of later classes
    and one or two nodes."""
    inv = Inv()
    n = nclasses or rng.randint(2, 7)
    dirs = ['', '', 'd1', 'd1.d2', 'e']
    names = []
    for i in range(n):
        d = rng.choice(dirs)
        names.append((d + '.' if d else '') + 'c%d' % i)
    inv.universe.update(names)
    missing_names = ['zz.missing', 'nope', 'd1.gone']
    inv.universe.update(missing_names)
    incl = {i: [] for i in range(n)}
    for i in range(n):
        for j in range(n):
            if j == i:
                continue
            fwd = j > i
            if (fwd and rng.random() < 0.35) or (cyclic and not fwd and rng.random() < 0.15):
                incl[i].append(j)
        rng.shuffle(incl[i])
    sel_defs = {}
    for i in range(n):
        name = names[i]
        loc = name.split('.')[:-1]
        cl = []
        for j in incl[i]:
            tgt = names[j]
            r = rng.random()
            if r < refs:
                key = 'sel%d' % j
                val = tgt
                tl0 = tgt.split('.')
                if sel_relative and rng.random() < sel_relative and tl0[:-1] == loc:
                    val = '.' + tl0[-1]          # the rendered name is relative to the including class
                    key = 'rel%d' % j
                if key in sel_defs and sel_defs[key] != val:
                    cl.append(tgt)
                else:
                    sel_defs[key] = val
                    cl.append('${%s}' % key)
            elif r < refs + relative:
                # relative form of tgt from loc if expressible
                tl = tgt.split('.')
                k = 0
                while k < len(loc) and k < len(tl) - 1 and loc[k] == tl[k]:
                    k += 1
                dots = len(loc) - k + 1
                rel = '.' * dots + '.'.join(tl[k:])
                if py_abs_class_name(loc, rel) == tgt:
                    cl.append(rel)
                else:
                    cl.append(tgt)
            else:
                cl.append(tgt)
        if sel_alias and rng.random() < sel_alias:
            # two entries of ONE include list whose references reach the same parameter: `${selJ}` and
            # `${aliJ}` with aliJ: ${selJ} (each entry is resolved on its own; the second names a class
            # that is merged already)
            rs = [x for x in cl if x.startswith('${sel')]
            if rs:
                x = rng.choice(rs)
                ak = 'ali' + x[5:-1]
                sel_defs[ak] = x
                cl.insert(rng.randint(0, len(cl)), '${%s}' % ak)
        if cl and rng.random() < 0.1:
            # an entry spelled twice (the include list keeps distinct entries only)
            cl.insert(rng.randint(0, len(cl)), rng.choice(cl))
        if missing and rng.random() < missing:
            cl.insert(rng.randint(0, len(cl)), rng.choice(missing_names))
        params = [(S('trace'), L(S(name)))]
        if rng.random() < 0.7:
            params.append((S(rng.choice(['k', 'k2'])), V.plain_value(rng, 1) if conflicts else V.scalar(rng)))
        if rng.random() < 0.4:
            params.append((S('m'), M((rng.choice('xy'), V.scalar(rng)))))
        if conflicts and rng.random() < 0.15:
            params.append((S(rng.choice(['~k', '=k2', '~m'])), V.plain_value(rng, 1)))
        if sel_override and sel_defs and rng.random() < sel_override:
            # this class re-defines a selector that an earlier include entry reads
            kx = rng.choice(sorted(sel_defs))
            params.append((S(kx), S(rng.choice(names))))
        d = doc(cl, [rng.choice(['a1', 'a2', 'a3', '~a1', '~a2'])
                     for _ in range(rng.randint(0, 3))] if apps else None, ('m', params))
        inv.classes[class_path(name)] = d
    # sel definitions live in a class included first by the node
    seldoc = doc([], None, ('m', [(S(k), S(v)) for k, v in sorted(sel_defs.items())] + [(S('trace'), L(S('sel')))]))
    inv.classes[('sel.yml',)] = seldoc
    for ni in range(rng.randint(1, 2)):
        roots = [names[i] for i in range(n) if rng.random() < 0.5] or [names[0]]
        rng.shuffle(roots)
        if rng.random() < 0.3:
            roots.append(rng.choice(roots))
        if refs:
            inv_sel = {v: k for k, v in sel_defs.items() if not v.startswith('.') and not v.startswith('$')}
            roots = [('${%s}' % inv_sel[x]) if x in inv_sel and rng.random() < 0.4 else x for x in roots]
        ncl = ['sel'] + roots
        if rng.random() < 0.08:
            # a class that carries the node's own name, included by the node (names of nodes and of
            # classes live in different spaces)
            inv.classes[('n%d.yml' % ni,)] = doc([], ['same'] if apps else None, ('m', [(S('trace'), L(S('n%d' % ni)))]))
            inv.universe.add('n%d' % ni)
            ncl.insert(rng.randint(1, len(ncl)), 'n%d' % ni)
        if missing and rng.random() < missing:
            ncl.insert(rng.randint(1, len(ncl)), rng.choice(missing_names))
        nparams = [(S('trace'), L(S('NODE'))), (S('k'), V.scalar(rng))]
        if nref and rng.random() < 0.3:
            nparams.append((S('nref'), S('${_reclass_:name:short}-${k2}' if rng.random() < 0.5 else '${m}')))
        inv.nodes[('n%d.yml' % ni,)] = doc(ncl, ['a3', '~a2'] if rng.random() < 0.5 else [], ('m', nparams))
    return inv, names, incl

# Greedy shrinking of a failing stack case (modes merge / value / value2 / value3): layers, mapping
# entries and list elements are removed, sub-values replaced by null, as long as the model and the
# implementation still disagree on the smaller input (or the implementation still crashes).
# Only used after a failure was found; the unshrunk input stays in the replay as well.
import common as C

STACK_MODES = ('merge', 'value', 'value2', 'value3')


def dec(toks, i=0):
    """inverse of common.enc: tokens -> (ast, next index)"""
    t = toks[i]
    c, body = t[0], t[1:]
    if t == 'N':
        return C.N, i + 1
    if t == 'T':
        return ('b', True), i + 1
    if t == 'F':
        return ('b', False), i + 1
    if c == 'I':
        return ('i', int(body)), i + 1
    if c == 'D':
        kind, y, j = body.split(':')
        return ('f', C.FloatTok(kind, C.unhx(y), C.unhx(j))), i + 1
    if c == 'S':
        import binascii
        return ('s', binascii.unhexlify(body).decode('utf-8')), i + 1
    if c == 'L':
        n, out, i = int(body), [], i + 1
        for _ in range(n):
            x, i = dec(toks, i)
            out.append(x)
        return ('l', out), i
    if c == 'M':
        n, out, i = int(body), [], i + 1
        for _ in range(n):
            k, i = dec(toks, i)
            v, i = dec(toks, i)
            out.append((k, v))
        return ('m', out), i
    if c == 'G':
        x, i2 = dec(toks, i + 1)
        return ('t', C.unhx(body), x), i2
    raise ValueError(t)


def parse_line(line):
    toks = line.split(' ')
    cid, mode = toks[0], toks[1]
    if mode not in STACK_MODES:
        return None
    groups, i = [], 2
    for _ in range(2 if mode == 'value3' else 1):
        n = int(toks[i])
        i += 1
        layers = []
        for _ in range(n):
            a, i = dec(toks, i)
            layers.append(a)
        groups.append(layers)
    if i != len(toks):
        return None
    return cid, mode, groups


def build_line(cid, mode, groups):
    parts = [cid, mode]
    for g in groups:
        parts.append('%d' % len(g))
        parts.extend(C.enc(l) for l in g)
    return ' '.join(parts)


def reductions(a):
    """one-step smaller variants of an AST (largest cuts first)"""
    t = a[0]
    if t == 'm':
        for j in range(len(a[1])):
            yield ('m', a[1][:j] + a[1][j + 1:])
        for j, (k, v) in enumerate(a[1]):
            if v[0] in ('m', 'l', 't') :
                yield ('m', a[1][:j] + [(k, C.N)] + a[1][j + 1:])
            for r in reductions(v):
                yield ('m', a[1][:j] + [(k, r)] + a[1][j + 1:])
    elif t == 'l':
        for j in range(len(a[1])):
            yield ('l', a[1][:j] + a[1][j + 1:])
        for j, v in enumerate(a[1]):
            for r in reductions(v):
                yield ('l', a[1][:j] + [r] + a[1][j + 1:])
    elif t == 't':
        yield a[2]


def size(groups):
    return sum(C.ast_size(l) for g in groups for l in g) + sum(len(g) for g in groups)


def still_differs(line):
    cid = line.split(' ', 1)[0]
    m, im = C.run_both([line])
    mo, io = m.get(cid), im.get(cid)
    if mo is None or io is None:
        return False
    if C.obs_kind(io) in ('panic', 'abort', 'timeout') and C.obs_kind(mo) not in ('panic',):
        return True
    r = C.agree(mo, io)
    return r is not None and not str(r).startswith('invalid')


def shrink(line, budget=120):
    """returns (smaller line, evaluations used) or (None, n) when the failure is not one this shrinker can replay"""
    p = parse_line(line)
    if p is None:
        return None, 0
    cid, mode, groups = p
    used = 1
    try:
        if build_line(cid, mode, groups).split(' ') != [x for x in line.split(' ') if x] or not still_differs(line):
            return None, used
    except Exception:
        return None, used
    progress = True
    while progress and used < budget:
        progress = False
        cands = []
        for gi, g in enumerate(groups):
            if len(g) > 1 or (mode == 'value3' and len(g) >= 1 and gi == 0 and False):
                for j in range(len(g)):
                    cands.append([x if k != gi else g[:j] + g[j + 1:] for k, x in enumerate(groups)])
            for j, l in enumerate(g):
                for r in reductions(l):
                    cands.append([x if k != gi else g[:j] + [r] + g[j + 1:] for k, x in enumerate(groups)])
        cands.sort(key=size)
        for cnd in cands:
            if used >= budget:
                break
            used += 1
            try:
                ok = still_differs(build_line(cid, mode, cnd))
            except Exception:
                ok = False
            if ok:
                groups = cnd
                progress = True
                break
    return build_line(cid, mode, groups), used


def show_line(line):
    p = parse_line(line)
    if p is None:
        return line[:300]
    _, mode, groups = p
    return ' ; '.join(' <- '.join(C.show(l) for l in g) for g in groups)

#!/usr/bin/env python3
"""usage: tools/seed_prompt.py Cxx [worktree-root]   -- prints the prompt given to a sub-agent that seeds a change
for property Cxx (the property text from properties.jsonl, the task, the deliverables, and the list of ideas already
used, taken from seeded/Cxx-*/meta.json).  The sub-agent gets this text and a scratch git worktree
<root>/Cxx of /repo (git -C /repo worktree add --detach <root>/Cxx HEAD); it writes to <root>/Cxx-out/."""
import glob
import json
import os
import re
import sys

VERIF = os.path.dirname(os.path.dirname(os.path.abspath(__file__)))


def main():
    pid = sys.argv[1]
    root = sys.argv[2] if len(sys.argv) > 2 else '/tmp/wt'
    prop = next(json.loads(l) for l in open(os.path.join(VERIF, 'properties.jsonl')) if json.loads(l)['id'] == pid)
    wt, out = '%s/%s' % (root, pid), '%s/%s-out' % (root, pid)
    used = []
    metas = sorted(glob.glob(os.path.join(VERIF, 'seeded', pid + '-*', 'meta.json')),
                   key=lambda p: (json.load(open(p)).get('round', 0), p))
    for m in metas:
        d = json.load(open(m))
        w = d.get('what') or d.get('change') or d.get('summary') or d.get('description') or d.get('needs_to_manifest') or ''
        if w:
            used.append(w)
    ideas = '; '.join('(%d) %s' % (i + 1, re.sub(r'\.\s*$', '', w)) for i, w in enumerate(used))
    quant = prop.get('quantifier', {}).get('text', '')
    print(f"""You are helping test a verification framework by producing a realistic *regression* for an open-source Rust library.

Work ONLY inside the git worktree {wt} (a checkout of the Rust library `reclass-rs`, a reimplementation of the Reclass hierarchical YAML merging tool; read its README.md and src/ first). Do not touch /repo or /verif, and do not read anything under /verif. Everything is offline (use `cargo build --offline`, `cargo test --offline`; set CARGO_TARGET_DIR={wt}/target).

The semantic property to break:

---
{pid}: {prop['title']}

{prop['statement']}

Quantified over: {quant}
---

Task: make a small, plausible-looking change to the library's source under {wt}/src (the kind of mistake a maintainer could make in a refactoring or "optimisation") such that:
 1. the crate still compiles (`cargo build --offline`) and the ENTIRE existing test suite still passes unchanged (`cargo test --workspace --no-fail-fast --offline`; do not edit, delete or add to existing tests to make them pass);
 2. the property above is violated for SOME input, but NOT in a way that ordinary use would expose at once: the violation must need something specific to manifest -- a particular shape of input, a multi-step situation, an unusual but valid input, or two cooperating code sites that each look fine alone;
 3. you provide a demonstration: a new standalone Rust integration test file ({out}/demo.rs, which can be copied to tests/ of the crate; it may create a temporary inventory directory with std::fs under std::env::temp_dir()) that FAILS with your change applied and PASSES on the unmodified checkout. Verify both directions yourself (e.g. `git diff > {out}/patch.diff; git checkout -- src; <run demo>; git apply {out}/patch.diff; <run demo>`).

Deliverables, written to {out}/ :
 - patch.diff  : `git diff` of your change against the checkout's HEAD (source change only, not the demo test)
 - demo.rs     : the demonstration test (must only use the crate's public API: `reclass_rs::Reclass::new(inventory_path, "nodes", "classes", ignore_class_notfound)`, `.render_node(name)` returning a NodeInfo with public fields `parameters` (a `reclass_rs::types::Mapping`), `classes`, `applications`; `.render_inventory()`; and `reclass_rs::types::{{Mapping, Value}}` with `Mapping::from_str`, `Mapping::merge`, `Value::Mapping(m).render_with_self()`, `Value::rendered(&root)`, `Value::get`)
 - notes.md    : which behaviour changes, the minimal input that exposes it, what it needs in order to manifest, and the exact commands you ran with their results (tests pass with the change; demo fails with change, passes without).
Leave the worktree with your change APPLIED to the source and the demo test NOT inside the crate's tests/ directory (so the existing suite is unchanged). Keep the change small (a few lines). Finally report a short summary.

These ideas have already been used by others and must be avoided (find a genuinely different mechanism, preferably in a different function, and preferably one that needs an unusual but valid input shape or a multi-step situation): {ideas}.
""")
    if pid in ('C12', 'C13'):
        print('Note: `render_inventory()` returns an `Inventory` whose fields are visible from outside the crate through Python or, '
              'when built with `RUSTFLAGS="--cfg reclass_rs_verif"`, through `Inventory::verif_parts()` returning (applications '
              'index, classes index, nodes map). The demo may be built with that flag.')


if __name__ == '__main__':
    main()

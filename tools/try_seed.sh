#!/bin/bash
# usage: try_seed.sh <patch.diff> <Cxx> [<Cyy> ...]   -- applies the patch to /repo, runs the checks, undoes it
PATCH=$1; shift
cd /verif
git -C /repo apply $PATCH || { echo "patch does not apply to /repo"; exit 9; }
for p in "$@"; do
  VERIF_NO_EVIDENCE=1 ./check $p --tier quick 2>&1 | grep -E "VIOLATION|KNOWN-FINDING|done:|INVALID|failing input|PROOF PROBLEM|harness build failed|shrunk|shrinker" | cut -c1-700
done
git -C /repo checkout -- .
( cd /verif/harness && cargo build --offline 2>&1 | grep -E "^error" | head -3 )

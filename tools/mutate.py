#!/usr/bin/env python3
"""Mutation testing of the checks.
phase 1:  tools/mutate.py gen      -- single-token mutants of /repo/src in a scratch worktree (/tmp/mut/wt); those with
                                       which the crate builds and the existing suite passes are kept in /tmp/mut/survivors/
phase 2:  tools/mutate.py check    -- each kept mutant is applied to /repo, the 20 quick checks run until one reports a
                                       violation, the mutant is undone; results in /tmp/mut/results.txt
Only a development aid (nothing registered in MANIFEST.json depends on it)."""
import os, re, subprocess, sys, random, json

WT, TGT, OUT = '/tmp/mut/wt', '/tmp/mut/target', '/tmp/mut/survivors'
FILES = ['src/types/mapping.rs', 'src/types/value.rs', 'src/refs/mod.rs', 'src/refs/parser.rs', 'src/node/mod.rs',
         'src/node/nodeinfo.rs', 'src/list/removable.rs', 'src/list/unique.rs', 'src/inventory.rs', 'src/config.rs', 'src/lib.rs']
RULES = [(r'==', '!='), (r'!=', '=='), (r'&&', '||'), (r'\|\|', '&&'), (r'\btrue\b', 'false'), (r'\bfalse\b', 'true'),
         (r' > ', ' >= '), (r' < ', ' <= '), (r' >= ', ' > '), (r' <= ', ' < '), (r'\+ 1\b', '+ 0'), (r'- 1\b', '- 0'),
         (r'\.is_some\(\)', '.is_none()'), (r'\.is_none\(\)', '.is_some()'), (r'if !', 'if '), (r'\.is_empty\(\)', '.len() == 1'),
         (r'\bcontinue;', ''), (r'\.pop\(\);', ';'), (r'\.clone\(\)\?', '.clone()?'), (r'\.starts_with\(', '.ends_with('),
         (r'\.ends_with\(', '.starts_with('), (r'\.push\(([a-z_]+)\);', ';'), (r'return Ok\(\(\)\);', ''),
         (r'\.insert\(([a-z_.()&]+)\);', ';'), (r'\.any\(', '.all('), (r'\.all\(', '.any('), (r'\.first\(\)', '.last()'), (r'\.last\(\)', '.first()')]


# second batch: operators for Rust idioms + statement deletion
RULES2 = [(r'!([a-z_]+[.(])', r'\1'), (r'\b64\b', '63'), (r'\b128\b', '127'), (r'\b0\b', '1'), (r'\b1\b', '2'),
          (r'\.iter\(\)', '.iter().rev()'), (r'KeyPrefix::Constant', 'KeyPrefix::Override'), (r'KeyPrefix::Override', 'KeyPrefix::Constant'),
          (r'force_const\b', 'force_override'), (r'force_override\b', 'force_const'), (r'const_keys', 'override_keys'),
          (r'override_keys', 'const_keys'), (r'\.negations\b', '.items'), (r"'~'", "'='"), (r"'='", "'~'"), (r'\.rev\(\)', ''),
          (r'&mut st\b', 'state'), (r'\.sort\(\);', ';'), (r'\.sort_unstable\(\);', ';'), (r'Ordering::Less', 'Ordering::Greater'),
          (r'\.min\(', '.max('), (r'\.max\(', '.min('), (r'\.skip\(1\)', '.skip(0)'), (r'\.take\(', '.skip('), (r'\.join\("([.:/])"\)', '.join("")'),
          (r'\.to_lowercase\(\)', ''), (r'\.trim\(\)', ''), (r'\.trim_start_matches\(', '.trim_end_matches('), (r'Some\(0\)', 'Some(1)'),
          (r'\.unwrap_or\(true\)', '.unwrap_or(false)'), (r'\.unwrap_or\(false\)', '.unwrap_or(true)'), (r'\.unwrap_or_default\(\)', '.unwrap_or_default()'),
          (r'^(\s+)([a-z_.]+\([^;{}]*\)\??;)\s*$', r'\1'), (r'^(\s+)(self\.[a-z_.]+(\([^;{}]*\))?\s*=\s*[^;{}]+;)\s*$', r'\1'),
          (r'^(\s+)([a-z_]+\.[a-z_]+\([^;{}]*\)\??;)\s*$', r'\1'), (r'^(\s+)(return Err\([^;{}]*\);)\s*$', r'\1'),
          (r' \+= ', ' -= '), (r' -= ', ' += '), (r'\.clone_from\(', '.clone_from('), (r'\.is_ok\(\)', '.is_err()'), (r'\.is_err\(\)', '.is_ok()')]


# third batch: negated conditions, separators, slice bounds
RULES3 = [(r'\bif ([^{}]*?[^ {}]) \{\s*$', r'if !(\1) {'), (r"':'", "'.'"), (r"'\.'", "':'"), (r'":"', '"."'), (r'"\."', '":"'), (r"'/'", "'.'"),
          (r'\[1\.\.\]', '[0..]'), (r'\[\.\.([a-z_]+)\]', r'[..\1 + 1]'), (r'\.skip\(1\)', ''), (r'\.next_back\(\)', '.next()'),
          (r'\.strip_prefix\(', '.strip_suffix('), (r'\.with_extension\(""\)', ''), (r'\.to_owned\(\)', '.to_owned()'),
          (r'while (.*) \{\s*$', r'if \1 {'), (r'\.insert\(0, ', '.push('), (r'\.extend\(([^;]*)\);', ';'), (r'Some\(true\)', 'Some(false)'),
          (r'Some\(false\)', 'Some(true)'), (r'\.unwrap_or\(Path::new\(""\)\)', '.unwrap_or(Path::new("x"))'), (r'\.parent\(\)', '.parent().and_then(|p| p.parent())'),
          (r'=> Ok\(\(\)\),', '=> return Ok(()),'), (r'\.min\(', '.max(')]


# fourth batch: string literals that look like identifiers / keys / extensions, constant conditions, dropped
# conjuncts, break <-> continue, else-if chains cut
RULES4 = [(r'"([A-Za-z_./:~=$\[\]{}-]{1,12})"', r'"\1x"'), (r'\bif (?!let\b)([^{}]*?[^ {}]) \{\s*$', 'if true {'),
          (r'\bif (?!let\b)([^{}]*?[^ {}]) \{\s*$', 'if false {'),
          (r'\bif (?!let\b)([^{}&|]+?) && ([^{}&|]+?) \{\s*$', r'if \1 {'), (r'\bif (?!let\b)([^{}&|]+?) && ([^{}&|]+?) \{\s*$', r'if \2 {'),
          (r'\bif (?!let\b)([^{}&|]+?) \|\| ([^{}&|]+?) \{\s*$', r'if \1 {'), (r'\bif (?!let\b)([^{}&|]+?) \|\| ([^{}&|]+?) \{\s*$', r'if \2 {'),
          (r'\bbreak;', 'continue;'), (r'\} else if ', '} if '), (r"'([a-z~=$:./_])'", r"'x'"),
          (r'\.unwrap_or\(([a-z_"]+)\)', r'.unwrap_or(Default::default())'), (r'\.flattened\(\)\?', ''), (r'\.to_lexical_normal\(\)', '')]

def sh(cmd, cwd=None, timeout=900):
    return subprocess.run(cmd, shell=True, cwd=cwd, stdout=subprocess.PIPE, stderr=subprocess.STDOUT, timeout=timeout)


def code_lines(path):
    """line numbers of non-test, non-comment code"""
    src = open(path).read().split('\n')
    out, skip = [], False
    for i, l in enumerate(src):
        if re.match(r'\s*#\[cfg\(test\)\]', l) or re.match(r'\s*mod .*tests? \{', l):
            skip = True
        if skip:
            continue
        s = l.strip()
        if not s or s.startswith('//') or s.startswith('#[') or 'reclass_rs_verif' in l or 'verif_' in l:
            continue
        out.append(i)
    return src, out


def gen(limit, rules=RULES, tag='m', seed=7):
    os.makedirs(OUT, exist_ok=True)
    if not os.path.exists(WT):
        sh('git -C /repo worktree add -q --detach %s HEAD' % WT)
    rnd = random.Random(seed)
    cands = []
    for f in FILES:
        src, lines = code_lines(os.path.join(WT, f))
        for i in lines:
            for pat, rep in rules:
                for m in re.finditer(pat, src[i]):
                    new = m.expand(rep) if '\\' in rep else rep
                    if new != m.group(0):
                        cands.append((f, i, m.start(), m.end(), new))
    rnd.shuffle(cands)
    done = 0
    seen = len(open('/tmp/mut/gen%s.log' % tag).read().split('\n')) - 1 if os.path.exists('/tmp/mut/gen%s.log' % tag) else 0
    log = open('/tmp/mut/gen%s.log' % tag, 'a')
    for n, (f, i, a, b, rep) in enumerate(cands[:limit]):
        if n < seen:
            continue   # resume an interrupted run
        p = os.path.join(WT, f)
        src = open(p).read().split('\n')
        orig = src[i]
        src[i] = orig[:a] + rep + orig[b:]
        open(p, 'w').write('\n'.join(src))
        env = 'CARGO_TARGET_DIR=%s CARGO_NET_OFFLINE=true' % TGT
        r = sh('%s timeout 600 cargo test --workspace --no-fail-fast --offline 2>&1 | tail -40' % env, cwd=WT)
        txt = r.stdout.decode()
        ok = txt.count('test result: ok') >= 3 and 'FAILED' not in txt and 'error' not in txt.split('test result')[0][-2000:]
        if ok:
            d = sh('git diff', cwd=WT).stdout.decode()
            open(os.path.join(OUT, '%s%04d.diff' % (tag, n)), 'w').write(d)
            done += 1
        log.write('%04d %s:%d %r -> %r : %s\n' % (n, f, i + 1, orig.strip()[:80], src[i].strip()[:80], 'SURVIVES-SUITE' if ok else 'killed/uncompilable'))
        log.flush()
        sh('git checkout -q -- .', cwd=WT)
    print('kept', done, 'of', min(limit, len(cands)), 'candidates (', len(cands), 'total )')


FIRST = {'src/types/mapping.rs': ['C02', 'C09', 'C10', 'C07', 'C03', 'C04'], 'src/types/value.rs': ['C02', 'C07', 'C05', 'C04', 'C19', 'C11', 'C03'],
         'src/refs/mod.rs': ['C03', 'C08', 'C05', 'C04', 'C06', 'C11'], 'src/refs/parser.rs': ['C06', 'C05', 'C11', 'C03'],
         'src/node/mod.rs': ['C01', 'C15', 'C16', 'C11', 'C18', 'C17'], 'src/node/nodeinfo.rs': ['C18', 'C19', 'C13'],
         'src/list/removable.rs': ['C17', 'C01', 'C13'], 'src/list/unique.rs': ['C01', 'C13', 'C17'],
         'src/inventory.rs': ['C13', 'C12', 'C19'], 'src/config.rs': ['C20', 'C16', 'C14'], 'src/lib.rs': ['C14', 'C18', 'C20', 'C11', 'C12']}


def check():
    done = set(l.split(' ')[0] for l in open('/tmp/mut/results.txt')) if os.path.exists('/tmp/mut/results.txt') else set()
    res = open('/tmp/mut/results.txt', 'a')
    for d in sorted(os.listdir(OUT)):
        if d in done:
            continue
        path = os.path.join(OUT, d)
        txt = open(path).read()
        first = next((v for k, v in FIRST.items() if k in txt), [])
        order = first + [p for p in ['C%02d' % k for k in range(1, 21)] if p not in first]
        if sh('git -C /repo apply %s' % path).returncode != 0:
            res.write('%s DOES-NOT-APPLY\n' % d); continue
        caught = None
        for p in order:
            r = sh('VERIF_NO_EVIDENCE=1 ./check %s --tier quick 2>&1 | grep -E "VIOLATION" | head -1' % p, cwd='/verif', timeout=1800)
            if r.stdout.strip():
                caught = p
                break
        sh('git -C /repo checkout -- .')
        res.write('%s %s\n' % (d, 'caught-by-' + caught if caught else 'NOT-CAUGHT'))
        res.flush()
    sh('cargo build --offline', cwd='/verif/harness')


if __name__ == '__main__':
    if sys.argv[1] == 'gen':
        gen(int(sys.argv[2]) if len(sys.argv) > 2 else 200)
    elif sys.argv[1] == 'gen3':
        gen(int(sys.argv[2]) if len(sys.argv) > 2 else 300, rules=RULES3, tag='t', seed=13)
    elif sys.argv[1] == 'gen4':
        gen(int(sys.argv[2]) if len(sys.argv) > 2 else 300, rules=RULES4, tag='u', seed=17)
    elif sys.argv[1] == 'gen2':
        gen(int(sys.argv[2]) if len(sys.argv) > 2 else 300, rules=RULES2, tag='s', seed=11)
    else:
        check()

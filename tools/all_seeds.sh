#!/bin/bash
# Re-runs every stored seed against the check of its own property (and reports whether it is still caught).
# usage: tools/all_seeds.sh [seed-dir ...]      (default: all of seeded/*)
cd /verif
dirs=("$@"); [ ${#dirs[@]} -eq 0 ] && dirs=(seeded/*)
for d in "${dirs[@]}"; do
  prop=$(python3 -c "import json,sys;print(json.load(open('$d/meta.json'))['property'])")
  git -C /repo apply "/verif/$d/patch.diff" || { echo "$d: PATCH DOES NOT APPLY"; continue; }
  out=$(VERIF_NO_EVIDENCE=1 ./check $prop --tier quick 2>&1 | grep -E "VIOLATION|done:" | tail -2 | tr '\n' ' ')
  git -C /repo checkout -- .
  if echo "$out" | grep -q "VIOLATION property=$prop"; then echo "$d: caught by $prop"; else echo "$d: NOT CAUGHT by $prop :: $out"; fi
done
( cd /verif/harness && cargo build --offline 2>&1 | grep -E "^error" | head -3 )

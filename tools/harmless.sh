#!/bin/bash
# Applies each behaviour-preserving change of harmless/*.diff to /repo and runs all 20 quick checks:
# none may report a violation (the existing suite passes with each of them; checked when they were written).
cd /verif
for d in harmless/*.diff; do
  git -C /repo apply "/verif/$d" || { echo "$d: PATCH DOES NOT APPLY"; continue; }
  bad=0
  for p in C01 C02 C03 C04 C05 C06 C07 C08 C09 C10 C11 C12 C13 C14 C15 C16 C17 C18 C19 C20; do
    out=$(VERIF_NO_EVIDENCE=1 ./check $p --tier quick 2>&1 | grep -E "VIOLATION|INVALID" | head -2)
    [ -n "$out" ] && { echo "$d: $p: $out" | cut -c1-300; bad=1; }
  done
  git -C /repo checkout -- .
  [ $bad -eq 0 ] && echo "$d: no alarm from any of the 20 checks"
done
( cd /verif/harness && cargo build --offline 2>&1 | grep -E "^error" | head -3 )

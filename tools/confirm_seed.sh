#!/bin/bash
# usage: confirm_seed.sh <out-dir with patch.diff and demo.rs>
# Confirms in a scratch worktree: suite passes with the patch; demo fails with it and passes without it.
set -u
OUT=$1
WT=/tmp/wt/confirm-$$
git -C /repo worktree add -q --detach $WT HEAD || exit 9
export CARGO_TARGET_DIR=/tmp/wt/confirm-target CARGO_NET_OFFLINE=true
cd $WT
git apply $OUT/patch.diff || { echo "PATCH DOES NOT APPLY"; git -C /repo worktree remove --force $WT; exit 8; }
echo "== suite with patch"; cargo test --workspace --no-fail-fast --offline 2>&1 | grep -E "^test result|FAILED|panicked" | head -8
cp $OUT/demo.rs tests/zz_demo.rs
echo "== demo with patch (expect failure)"; RUSTFLAGS="${EXTRA_RUSTFLAGS:-}" cargo test --offline --test zz_demo 2>&1 | grep -E "^test result|^test .* (ok|FAILED)|error\[" | head -12
git apply -R $OUT/patch.diff
echo "== demo without patch (expect pass)"; RUSTFLAGS="${EXTRA_RUSTFLAGS:-}" cargo test --offline --test zz_demo 2>&1 | grep -E "^test result|^test .* (ok|FAILED)|error\[" | head -12
cd /; git -C /repo worktree remove --force $WT
